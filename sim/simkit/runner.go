package simkit

import (
	"encoding/json"
	"fmt"
	"math/rand"
	"os"
	"runtime/debug"
	"strings"
	"testing"
	"testing/cryptotest"
)

// Prop is one registered property check.
type Prop struct {
	ID   string
	Desc string
	// Rule states how runs are generated and what makes one non-trivial.
	Rule string
	Real []string // components running real code
	Stub []string // components replaced by stubs / harness
	// Assumptions the oracle relies on.
	Assumptions []string
	// Run executes one simulated run driven entirely by c.Tape.
	Run func(c *Ctx)
	// PanicOracle: a panic inside Run (outside the harness) is reported with this
	// oracle id ("panic" if empty) — the models have no panic outcome.
	NoShrink bool
	// ExpectedProbes are rare-branch probes the workload is meant to reach; one
	// stuck at zero over a whole batch is printed as a warning.
	ExpectedProbes []string
	// MaxShrinkRuns bounds shrinking executions (default 400).
	MaxShrinkRuns int
}

var registry = map[string]*Prop{}

func Register(p *Prop) {
	if _, dup := registry[p.ID]; dup {
		panic("duplicate prop " + p.ID)
	}
	registry[p.ID] = p
}
func Lookup(id string) *Prop { return registry[id] }
func All() map[string]*Prop  { return registry }

// Outcome of one execution.
type Outcome struct {
	Ctx        *Ctx
	Failure    *Failure
	HarnessErr string
}

// Execute runs prop once on the given tape. Everything random inside the
// system is pinned to the tape's seed: crypto/rand through cryptotest, the
// global math/rand through rand.Seed (godebug randseednop=0 in go.mod).
func Execute(t *testing.T, p *Prop, tier string, tape *Tape, isKnown func(*Failure) bool, quiet bool, param map[string]string) (out Outcome) {
	c := NewCtx(t, p.ID, tier, tape)
	c.IsKnown = isKnown
	c.Quiet = quiet
	for k, v := range param {
		c.Param[k] = v
	}
	out.Ctx = c
	cryptotest.SetGlobalRandom(t, tape.Seed)
	rand.Seed(int64(tape.Seed))
	func() {
		defer func() {
			if r := recover(); r != nil {
				switch v := r.(type) {
				case failSentinel:
					out.Failure = v.f
				case HarnessError:
					out.HarnessErr = v.Msg
				default:
					// A panic in the system under test: refinement failure.
					st := string(debug.Stack())
					if sp, ok := r.(SysPanic); ok {
						r, st = sp.Val, sp.Stack
					}
					site := panicSite(st)
					msg := fmt.Sprint(r)
					if strings.Contains(msg, "deadlock: main bubble goroutine has exited") || strings.Contains(msg, "blocked goroutines remain") {
						out.HarnessErr = "bubble ended with blocked goroutines: " + msg
						return
					}
					c.Logf("PANIC %v at %s", r, site)
					out.Failure = &Failure{Prop: p.ID, Oracle: "panic", Sig: site, Detail: fmt.Sprintf("%v\n%s", r, trimStack(st))}
				}
			}
		}()
		defer c.RunCleanups()
		p.Run(c)
	}()
	c.Failure = out.Failure
	return
}

func trimStack(s string) string {
	lines := strings.Split(s, "\n")
	if len(lines) > 60 {
		lines = lines[:60]
	}
	return strings.Join(lines, "\n")
}

// panicSite extracts the first frame after the panic call that is not in the
// runtime or the harness kernel: a stable signature for the panic.
func panicSite(stack string) string {
	lines := strings.Split(stack, "\n")
	seenPanic := false
	for i := 0; i+1 < len(lines); i++ {
		l := lines[i]
		if strings.HasPrefix(l, "panic(") {
			seenPanic = true
			continue
		}
		if !seenPanic || strings.HasPrefix(l, "\t") {
			continue
		}
		if strings.HasPrefix(l, "runtime.") || strings.Contains(l, "simkit.") {
			continue
		}
		fn := l
		if k := strings.LastIndex(fn, "("); k > 0 {
			fn = fn[:k]
		}
		return fn
	}
	return "unknown"
}

// ReplayFile is what a violation is reported as.
type ReplayFile struct {
	Property  string            `json:"property"`
	Oracle    string            `json:"oracle"`
	Signature string            `json:"signature"`
	Detail    string            `json:"detail"`
	Seed      uint64            `json:"seed"`     // VERIF_SEED of the batch
	RunSeed   uint64            `json:"run_seed"` // tape seed of the failing run
	Tier      string            `json:"tier"`
	Param     map[string]string `json:"param,omitempty"`
	Tape      []uint32          `json:"tape"`                       // minimised choice tape
	TapeFull  []uint32          `json:"tape_unminimised,omitempty"` // the original failing tape
	TapeOrig  int               `json:"tape_len_before_shrink"`
	ShrinkRun int               `json:"shrink_executions"`
	TraceHash string            `json:"trace_hash"`
	Faults    map[string]int    `json:"faults"`
	Trace     []string          `json:"trace"`
	// ProcessAbort: the run ended in an unrecoverable runtime abort (out of
	// memory, stack overflow, panic on a goroutine of the system); written by
	// bin/check from the worker's log, replayed from RunSeed
	ProcessAbort bool `json:"process_abort,omitempty"`
}

func WriteReplay(path string, rf *ReplayFile) error {
	b, err := json.MarshalIndent(rf, "", " ")
	if err != nil {
		return err
	}
	return os.WriteFile(path, b, 0644)
}

func ReadReplay(path string) (*ReplayFile, error) {
	b, err := os.ReadFile(path)
	if err != nil {
		return nil, err
	}
	rf := &ReplayFile{}
	return rf, json.Unmarshal(b, rf)
}

// Shrink minimises a failing tape while the same property/oracle/signature
// class persists. Passes: truncate, delete chunks, zero chunks, lower values.
func Shrink(t *testing.T, p *Prop, tier string, seed uint64, vals []uint32, want *Failure, param map[string]string, isKnown func(*Failure) bool) ([]uint32, int) {
	budget := p.MaxShrinkRuns
	if budget == 0 {
		budget = 400
	}
	runs := 0
	fails := func(cand []uint32) bool {
		if runs >= budget {
			return false
		}
		for k := 0; k < 2; k++ { // twice in a row: a candidate that fails only sometimes is useless as a replay
			runs++
			o := Execute(t, p, tier, ReplayTape(seed, cand), isKnown, true, param)
			if !(o.Failure != nil && o.Failure.Oracle == want.Oracle && o.Failure.Sig == want.Sig) {
				return false
			}
		}
		return true
	}
	cur := append([]uint32(nil), vals...)
	// the replayed original must fail, else do not shrink at all
	if !fails(cur) {
		return cur, runs
	}
	// trailing zeros are free
	trim := func(v []uint32) []uint32 {
		for len(v) > 0 && v[len(v)-1] == 0 {
			v = v[:len(v)-1]
		}
		return v
	}
	cur = trim(cur)
	// 1. truncate (binary search on length)
	lo, hi := 0, len(cur)
	for lo < hi && runs < budget {
		mid := (lo + hi) / 2
		if fails(cur[:mid]) {
			hi = mid
		} else {
			lo = mid + 1
		}
	}
	if hi < len(cur) && fails(cur[:hi]) {
		cur = trim(append([]uint32(nil), cur[:hi]...))
	}
	improved := true
	for improved && runs < budget {
		improved = false
		// 2. delete chunks, 3. zero chunks
		for size := len(cur) / 2; size >= 1 && runs < budget; size /= 2 {
			for i := 0; i+size <= len(cur) && runs < budget; {
				cand := append(append([]uint32(nil), cur[:i]...), cur[i+size:]...)
				if fails(cand) {
					cur = trim(cand)
					improved = true
					continue
				}
				allZero := true
				for _, v := range cur[i : i+size] {
					if v != 0 {
						allZero = false
					}
				}
				if !allZero {
					cand = append([]uint32(nil), cur...)
					for k := i; k < i+size; k++ {
						cand[k] = 0
					}
					if fails(cand) {
						cur = trim(cand)
						improved = true
					}
				}
				i += size
			}
		}
		// 4. lower single values
		for i := 0; i < len(cur) && runs < budget; i++ {
			if cur[i] == 0 {
				continue
			}
			for _, nv := range []uint32{0, cur[i] / 2, cur[i] - 1} {
				if nv >= cur[i] {
					continue
				}
				cand := append([]uint32(nil), cur...)
				cand[i] = nv
				if fails(cand) {
					cur = trim(cand)
					improved = true
					break
				}
			}
		}
	}
	return cur, runs
}
