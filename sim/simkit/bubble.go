package simkit

import (
	"fmt"
	"os"
	"runtime"
	"runtime/debug"
	"strings"
	"testing"
	"testing/synctest"
	"time"
)

// Bubble runs f inside a synctest bubble: a fake clock read by every
// time.Now/timer/ticker of the system, and quiescence detection
// (synctest.Wait). Cleanups registered with c.Defer inside f run inside the
// bubble, followed by a simulated pause that lets goleveldb's pool-drain
// goroutines exit. A Fail/panic inside f is re-raised outside the bubble.
func (c *Ctx) Bubble(f func()) {
	var inner interface{}
	outerT := c.T
	func() {
		defer func() {
			if r := recover(); r != nil {
				if inner != nil {
					return // a failure already unwound; leaked goroutines of the failed node are expected
				}
				msg := fmt.Sprint(r)
				if strings.Contains(msg, "blocked goroutines remain") || strings.Contains(msg, "deadlock") {
					if debugTrace {
						buf := make([]byte, 1<<20)
						buf = buf[:runtime.Stack(buf, true)]
						os.Stderr.Write(buf)
					}
					inner = HarnessError{"bubble ended with blocked goroutines: " + msg}
					return
				}
				inner = r
			}
		}()
		synctest.Test(c.T, func(t *testing.T) {
			c.T = t
			// the bubble clock starts at 2000-01-01; move it past the chain's
			// genesis stamp (2018) before anything else exists
			if d := time.Until(time.Unix(BubbleEpoch, 0)); d > 0 {
				time.Sleep(d)
			}
			start := time.Now()
			defer func() {
				if r := recover(); r != nil {
					switch r.(type) {
					case failSentinel, HarnessError, SysPanic:
						inner = r
					default:
						inner = SysPanic{Val: r, Stack: string(debug.Stack())}
					}
				}
				c.RunCleanups()
				time.Sleep(3 * time.Second)
				synctest.Wait()
				c.SimSeconds += time.Since(start).Seconds()
			}()
			f()
		})
	}()
	c.T = outerT
	if inner != nil {
		panic(inner)
	}
}

// BubbleEpoch is the simulated wall-clock time (unix seconds) at which a
// bubble's workload starts: one hour after the ontology genesis timestamp.
const BubbleEpoch = 1530316800 + 3600

// SysPanic carries a panic of the system under test (with the stack captured
// at the panic site) out of a bubble.
type SysPanic struct {
	Val   interface{}
	Stack string
}
