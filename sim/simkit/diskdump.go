package simkit

import (
	"crypto/sha256"
	"fmt"

	"github.com/syndtr/goleveldb/leveldb"
	"github.com/syndtr/goleveldb/leveldb/opt"
)

// KV is one logical entry of a store.
type KV struct{ K, V []byte }

// DumpStore returns the full logical content (sorted by key) of the LevelDB at
// path, read from a private copy of the image so the node is not disturbed
// (works whether or not the node has the database open).
func (d *Disk) DumpStore(path string) ([]KV, error) {
	cl := d.Clone()
	db, err := leveldb.Open(cl.Storage(path), &opt.Options{ReadOnly: true, WriteBuffer: 64 << 10})
	if err != nil {
		return nil, err
	}
	defer db.Close()
	it := db.NewIterator(nil, nil)
	defer it.Release()
	var out []KV
	for it.Next() {
		out = append(out, KV{append([]byte(nil), it.Key()...), append([]byte(nil), it.Value()...)})
	}
	return out, it.Error()
}

// DigestKV hashes a sorted KV list.
func DigestKV(kvs []KV) string {
	h := sha256.New()
	var l [8]byte
	for _, kv := range kvs {
		put64(l[:], uint64(len(kv.K)))
		h.Write(l[:])
		h.Write(kv.K)
		put64(l[:], uint64(len(kv.V)))
		h.Write(l[:])
		h.Write(kv.V)
	}
	return fmt.Sprintf("%x#%d", h.Sum(nil)[:10], len(kvs))
}

func put64(b []byte, v uint64) {
	for i := 0; i < 8; i++ {
		b[i] = byte(v >> (8 * uint(i)))
	}
}

// DiffKV describes the first differences between two sorted KV lists.
func DiffKV(a, b []KV, max int) []string {
	var out []string
	i, j := 0, 0
	for (i < len(a) || j < len(b)) && len(out) < max {
		switch {
		case j >= len(b) || (i < len(a) && string(a[i].K) < string(b[j].K)):
			out = append(out, fmt.Sprintf("only-left key=%x val=%x", a[i].K, trunc(a[i].V)))
			i++
		case i >= len(a) || string(a[i].K) > string(b[j].K):
			out = append(out, fmt.Sprintf("only-right key=%x val=%x", b[j].K, trunc(b[j].V)))
			j++
		default:
			if string(a[i].V) != string(b[j].V) {
				out = append(out, fmt.Sprintf("differ key=%x left=%x right=%x", a[i].K, trunc(a[i].V), trunc(b[j].V)))
			}
			i++
			j++
		}
	}
	return out
}

func trunc(b []byte) []byte {
	if len(b) > 48 {
		return b[:48]
	}
	return b
}
