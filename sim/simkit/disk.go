package simkit

import (
	"bytes"
	"errors"
	"fmt"
	"io"
	"os"
	"sort"
	"sync"

	"github.com/syndtr/goleveldb/leveldb/storage"
)

// ErrCrashed is returned by every mutating call once the disk has crashed.
var ErrCrashed = errors.New("simdisk: process crashed (fail-stop)")

// Disk is the simulated durable medium of one node: a set of goleveldb
// storages keyed by database path. Every mutating call is numbered; an armed
// crash makes the k-th mutating call (optionally after a torn prefix) and all
// later ones fail, which freezes the image exactly as it stood at the moment
// of process death. Completed writes survive whether or not they were synced
// (process-death model).
type Disk struct {
	pauseAt      int
	pauseReached chan struct{}
	pauseGo      chan struct{}
	mu           sync.Mutex
	stores       map[string]*diskStore
	ops          int // mutating calls performed so far (successful or the crashing one)
	crashAt      int // 0 = not armed; else absolute op number that fails
	torn         int // for the crashing Write: keep torn/256 of the bytes
	crashed      bool
	// CrashInfo describes the op the crash landed on.
	CrashInfo string
	// OpLog records the last mutating calls (for traces).
	OpLog  []string
	counts map[string]int
	OnOp   func(op string) // optional observer (no tape draws!)
}

type diskStore struct {
	d       *Disk
	path    string
	files   map[storage.FileDesc]*memFile
	meta    storage.FileDesc
	hasMeta bool
	locked  bool
}

type memFile struct {
	data []byte
	open bool
}

func NewDisk() *Disk { return &Disk{stores: map[string]*diskStore{}, counts: map[string]int{}} }

// Storage returns the storage for a database path (created empty on first use).
func (d *Disk) Storage(path string) storage.Storage {
	d.mu.Lock()
	defer d.mu.Unlock()
	s := d.stores[path]
	if s == nil {
		s = &diskStore{d: d, path: path, files: map[storage.FileDesc]*memFile{}}
		d.stores[path] = s
	}
	return &storeHandle{s: s}
}

// Ops returns the number of mutating calls so far.
func (d *Disk) Ops() int { d.mu.Lock(); defer d.mu.Unlock(); return d.ops }

// Counts returns mutating-call counts per "path-suffix/op/filetype".
func (d *Disk) Counts() map[string]int {
	d.mu.Lock()
	defer d.mu.Unlock()
	out := map[string]int{}
	for k, v := range d.counts {
		out[k] = v
	}
	return out
}

// ArmCrash makes the n-th mutating call from now (n>=1) fail; tornNum/256 of a
// crashing Write's bytes are kept (0 = nothing written).
func (d *Disk) ArmCrash(n int, tornNum int) {
	d.mu.Lock()
	defer d.mu.Unlock()
	d.crashAt = d.ops + n
	d.torn = tornNum
}

func (d *Disk) Disarm() { d.mu.Lock(); d.crashAt = 0; d.mu.Unlock() }

func (d *Disk) Crashed() bool { d.mu.Lock(); defer d.mu.Unlock(); return d.crashed }

// CrashNow freezes the disk immediately (a crash between two disk calls).
func (d *Disk) CrashNow(why string) {
	d.mu.Lock()
	d.crashed = true
	d.CrashInfo = why
	d.mu.Unlock()
}

// Restart clears the crashed flag and all locks and open handles: the image is
// what a new process finds.
func (d *Disk) Restart() {
	d.mu.Lock()
	defer d.mu.Unlock()
	d.crashed = false
	d.crashAt = 0
	d.CrashInfo = ""
	for _, s := range d.stores {
		s.locked = false
		for _, f := range s.files {
			f.open = false
		}
	}
}

// Clone deep-copies the image (unlocked, not crashed).
func (d *Disk) Clone() *Disk {
	d.mu.Lock()
	defer d.mu.Unlock()
	n := NewDisk()
	for p, s := range d.stores {
		ns := &diskStore{d: n, path: p, files: map[storage.FileDesc]*memFile{}, meta: s.meta, hasMeta: s.hasMeta}
		for fd, f := range s.files {
			ns.files[fd] = &memFile{data: append([]byte(nil), f.data...)}
		}
		n.stores[p] = ns
	}
	return n
}

// TotalBytes is the size of the image.
func (d *Disk) TotalBytes() int {
	d.mu.Lock()
	defer d.mu.Unlock()
	n := 0
	for _, s := range d.stores {
		for _, f := range s.files {
			n += len(f.data)
		}
	}
	return n
}

// ArmPause makes the goroutine that issues the n-th mutating call from now
// (n>=1) stop right before that call takes effect. reached is closed when it
// has stopped; resume lets it continue (and disarms an unreached pause). The
// caller schedules other activity of the system in between: the paused
// goroutine holds no lock of the disk.
func (d *Disk) ArmPause(n int) (reached <-chan struct{}, resume func()) {
	d.mu.Lock()
	defer d.mu.Unlock()
	r, g := make(chan struct{}), make(chan struct{})
	d.pauseAt, d.pauseReached, d.pauseGo = d.ops+n, r, g
	var once sync.Once
	return r, func() {
		once.Do(func() {
			d.mu.Lock()
			d.pauseAt = 0
			d.mu.Unlock()
			close(g)
		})
	}
}

// mutate numbers a mutating call; returns (allowed bytes for a torn write, error).
// caller holds d.mu.
func (d *Disk) mutate(s *diskStore, op string, fd storage.FileDesc, nbytes int) (int, error) {
	if d.crashed {
		return 0, ErrCrashed
	}
	if d.pauseAt != 0 && d.ops+1 >= d.pauseAt {
		d.pauseAt = 0
		r, g := d.pauseReached, d.pauseGo
		d.mu.Unlock()
		close(r)
		<-g
		d.mu.Lock()
		if d.crashed {
			return 0, ErrCrashed
		}
	}
	d.ops++
	key := fmt.Sprintf("%s/%s/%s", shortPath(s.path), op, ftName(fd.Type))
	d.counts[key]++
	if len(d.OpLog) < 20000 {
		d.OpLog = append(d.OpLog, fmt.Sprintf("#%d %s %s n=%d", d.ops, key, fd, nbytes))
	}
	if d.OnOp != nil {
		d.OnOp(key)
	}
	if d.crashAt != 0 && d.ops >= d.crashAt {
		d.crashed = true
		keep := 0
		if op == "write" && nbytes > 0 {
			keep = nbytes * d.torn / 256
		}
		d.CrashInfo = fmt.Sprintf("op#%d %s %s n=%d kept=%d", d.ops, key, fd, nbytes, keep)
		return keep, ErrCrashed
	}
	return nbytes, nil
}

func shortPath(p string) string {
	for i := len(p) - 1; i >= 0; i-- {
		if p[i] == os.PathSeparator {
			return p[i+1:]
		}
	}
	return p
}

func ftName(t storage.FileType) string {
	switch t {
	case storage.TypeManifest:
		return "manifest"
	case storage.TypeJournal:
		return "journal"
	case storage.TypeTable:
		return "table"
	case storage.TypeTemp:
		return "temp"
	}
	return "other"
}

type storeHandle struct{ s *diskStore }

type simLock struct{ s *diskStore }

func (l *simLock) Unlock() {
	l.s.d.mu.Lock()
	l.s.locked = false
	l.s.d.mu.Unlock()
}

func (h *storeHandle) Lock() (storage.Locker, error) {
	d := h.s.d
	d.mu.Lock()
	defer d.mu.Unlock()
	if h.s.locked {
		return nil, storage.ErrLocked
	}
	h.s.locked = true
	return &simLock{h.s}, nil
}

func (h *storeHandle) Log(str string) {}

func (h *storeHandle) SetMeta(fd storage.FileDesc) error {
	d := h.s.d
	d.mu.Lock()
	defer d.mu.Unlock()
	if _, err := d.mutate(h.s, "setmeta", fd, 0); err != nil {
		return err
	}
	h.s.meta = fd
	h.s.hasMeta = true
	return nil
}

func (h *storeHandle) GetMeta() (storage.FileDesc, error) {
	d := h.s.d
	d.mu.Lock()
	defer d.mu.Unlock()
	if !h.s.hasMeta {
		return storage.FileDesc{}, os.ErrNotExist
	}
	return h.s.meta, nil
}

func (h *storeHandle) List(ft storage.FileType) ([]storage.FileDesc, error) {
	d := h.s.d
	d.mu.Lock()
	defer d.mu.Unlock()
	var fds []storage.FileDesc
	for fd := range h.s.files {
		if fd.Type&ft != 0 {
			fds = append(fds, fd)
		}
	}
	sort.Slice(fds, func(i, j int) bool {
		if fds[i].Type != fds[j].Type {
			return fds[i].Type < fds[j].Type
		}
		return fds[i].Num < fds[j].Num
	})
	return fds, nil
}

func (h *storeHandle) Open(fd storage.FileDesc) (storage.Reader, error) {
	d := h.s.d
	d.mu.Lock()
	defer d.mu.Unlock()
	f := h.s.files[fd]
	if f == nil {
		return nil, os.ErrNotExist
	}
	// readers see a stable snapshot of the bytes present at open (files are
	// append-only in goleveldb and never reopened for writing)
	return &simReader{Reader: bytes.NewReader(f.data)}, nil
}

type simReader struct{ *bytes.Reader }

func (r *simReader) Close() error { return nil }

func (h *storeHandle) Create(fd storage.FileDesc) (storage.Writer, error) {
	d := h.s.d
	d.mu.Lock()
	defer d.mu.Unlock()
	if _, err := d.mutate(h.s, "create", fd, 0); err != nil {
		return nil, err
	}
	f := &memFile{open: true}
	h.s.files[fd] = f
	return &simWriter{s: h.s, fd: fd, f: f}, nil
}

func (h *storeHandle) Remove(fd storage.FileDesc) error {
	d := h.s.d
	d.mu.Lock()
	defer d.mu.Unlock()
	if _, ok := h.s.files[fd]; !ok {
		return os.ErrNotExist
	}
	if _, err := d.mutate(h.s, "remove", fd, 0); err != nil {
		return err
	}
	delete(h.s.files, fd)
	return nil
}

func (h *storeHandle) Rename(oldfd, newfd storage.FileDesc) error {
	d := h.s.d
	d.mu.Lock()
	defer d.mu.Unlock()
	f, ok := h.s.files[oldfd]
	if !ok {
		return os.ErrNotExist
	}
	if _, err := d.mutate(h.s, "rename", oldfd, 0); err != nil {
		return err
	}
	delete(h.s.files, oldfd)
	h.s.files[newfd] = f
	return nil
}

func (h *storeHandle) Close() error { return nil }

type simWriter struct {
	s      *diskStore
	fd     storage.FileDesc
	f      *memFile
	closed bool
}

func (w *simWriter) Write(p []byte) (int, error) {
	d := w.s.d
	d.mu.Lock()
	defer d.mu.Unlock()
	if w.closed {
		return 0, io.ErrClosedPipe
	}
	keep, err := d.mutate(w.s, "write", w.fd, len(p))
	if keep > 0 {
		w.f.data = append(w.f.data, p[:keep]...)
	}
	if err != nil {
		return keep, err
	}
	return len(p), nil
}

func (w *simWriter) Sync() error {
	d := w.s.d
	d.mu.Lock()
	defer d.mu.Unlock()
	if d.crashed {
		return ErrCrashed
	}
	// Sync is not numbered as a crash point of its own: under the process-death
	// model it changes nothing on the image.
	return nil
}

func (w *simWriter) Close() error {
	d := w.s.d
	d.mu.Lock()
	defer d.mu.Unlock()
	w.closed = true
	w.f.open = false
	return nil
}
