package simkit

import (
	"crypto/sha256"
	"encoding/binary"
	"fmt"
	"hash"
	"os"
	"sort"
	"testing"
)

// Failure is a property violation found by an oracle during a run.
type Failure struct {
	Prop   string `json:"property"`
	Oracle string `json:"oracle"`    // which oracle fired, e.g. "state-root-differs"
	Sig    string `json:"signature"` // stable class of the failing history (for known findings)
	Detail string `json:"detail"`
}

func (f *Failure) Key() string { return f.Prop + "/" + f.Oracle + "/" + f.Sig }

type failSentinel struct{ f *Failure }

// Ctx is handed to a property's Run function for one simulated run.
type Ctx struct {
	T     *testing.T
	Tape  *Tape
	Tier  string // quick | thorough
	Prop  string
	Param map[string]string // world configuration overrides (recorded in replay files)

	trace     []string
	traceHash hash.Hash
	traceN    int

	Faults     map[string]int // fault kind -> times it actually fired
	Probes     map[string]int // rare-branch probes reached
	SimSeconds float64        // simulated time covered by this run
	nontrivial bool
	fp         hash.Hash // state fingerprint accumulator
	states     map[uint64]struct{}
	cleanups   []func()
	Failure    *Failure
	Known      []*Failure // violations matching known_findings (run continues or ends, not fatal)
	IsKnown    func(*Failure) bool
	Quiet      bool // shrinking: do not keep trace strings
}

const maxTraceLines = 4000

func NewCtx(t *testing.T, prop, tier string, tape *Tape) *Ctx {
	return &Ctx{T: t, Tape: tape, Tier: tier, Prop: prop, Param: map[string]string{},
		traceHash: sha256.New(), Faults: map[string]int{}, Probes: map[string]int{},
		states: map[uint64]struct{}{}}
}

// Logf appends an event to the run's trace. It never draws from the tape and
// never reads a clock.
func (c *Ctx) Logf(format string, a ...interface{}) {
	s := fmt.Sprintf(format, a...)
	if debugTrace {
		fmt.Fprintln(os.Stderr, "  . "+s)
	}
	c.traceHash.Write([]byte(s))
	c.traceHash.Write([]byte{'\n'})
	c.traceN++
	if !c.Quiet && len(c.trace) < maxTraceLines {
		c.trace = append(c.trace, s)
	}
}

func (c *Ctx) Trace() []string { return c.trace }
func (c *Ctx) TraceLen() int   { return c.traceN }
func (c *Ctx) TraceHash() string {
	return fmt.Sprintf("%x", c.traceHash.Sum(nil)[:12])
}
func (c *Ctx) TraceHash64() uint64 {
	return binary.LittleEndian.Uint64(c.traceHash.Sum(nil)[:8])
}

// Fault records that a fault of this kind actually fired.
func (c *Ctx) Fault(kind string) { c.Faults[kind]++ }

// Probe records that a rare branch / condition was reached.
func (c *Ctx) Probe(name string) { c.Probes[name]++ }

// NonTrivial marks the run as non-trivial by the property's stated rule.
func (c *Ctx) NonTrivial()        { c.nontrivial = true }
func (c *Ctx) IsNonTrivial() bool { return c.nontrivial }

// State records a state fingerprint reached (for the distinct-states measure).
func (c *Ctx) State(parts ...interface{}) {
	h := sha256.Sum256([]byte(fmt.Sprint(parts...)))
	c.states[binary.LittleEndian.Uint64(h[:8])] = struct{}{}
}
func (c *Ctx) States() []uint64 {
	out := make([]uint64, 0, len(c.states))
	for k := range c.states {
		out = append(out, k)
	}
	sort.Slice(out, func(i, j int) bool { return out[i] < out[j] })
	return out
}

// Defer registers a cleanup that runs at the end of the run, also after a failure.
func (c *Ctx) Defer(f func()) { c.cleanups = append(c.cleanups, f) }

func (c *Ctx) RunCleanups() {
	for i := len(c.cleanups) - 1; i >= 0; i-- {
		func() {
			defer func() { recover() }()
			c.cleanups[i]()
		}()
	}
	c.cleanups = nil
}

// Fail reports a violation and unwinds the run. If the violation matches a
// known finding it is recorded and the run also ends (state after a violation
// is not trusted), but it is not counted as a new violation.
func (c *Ctx) Fail(oracle, sig, format string, a ...interface{}) {
	f := &Failure{Prop: c.Prop, Oracle: oracle, Sig: sig, Detail: fmt.Sprintf(format, a...)}
	c.Logf("VIOLATION oracle=%s sig=%s: %s", oracle, sig, f.Detail)
	panic(failSentinel{f})
}

// Note records a known-finding-class violation without ending the run when the
// property can keep checking afterwards; unknown ones still end the run.
func (c *Ctx) FailSoft(oracle, sig, format string, a ...interface{}) {
	f := &Failure{Prop: c.Prop, Oracle: oracle, Sig: sig, Detail: fmt.Sprintf(format, a...)}
	if c.IsKnown != nil && c.IsKnown(f) {
		c.Logf("KNOWN oracle=%s sig=%s: %s", oracle, sig, f.Detail)
		c.Known = append(c.Known, f)
		return
	}
	c.Logf("VIOLATION oracle=%s sig=%s: %s", oracle, sig, f.Detail)
	panic(failSentinel{f})
}

// Assert is Fail when cond is false.
func (c *Ctx) Assert(cond bool, oracle, sig, format string, a ...interface{}) {
	if !cond {
		c.Fail(oracle, sig, format, a...)
	}
}

// HarnessError aborts the run with exit 2 semantics: trouble in the harness
// itself (setup that cannot fail on a correct harness), never a violation.
type HarnessError struct{ Msg string }

func (c *Ctx) Harness(format string, a ...interface{}) {
	panic(HarnessError{fmt.Sprintf(format, a...)})
}

// Must aborts with a harness error when err != nil.
func (c *Ctx) Must(err error, what string) {
	if err != nil {
		panic(HarnessError{what + ": " + err.Error()})
	}
}

var debugTrace = os.Getenv("VERIF_DEBUG") != ""
