package simkit

import (
	"fmt"
	"runtime"
	"sort"
	"strings"
	"sync"
)

// Gate is a goroutine of the system under test parked at a scheduling point.
type Gate struct {
	Site string
	A, B int // A names the owning node (e.g. server index), B a site-specific detail
	N    int // per-(site,A,B) arrival counter: makes keys unique
	ch   chan struct{}
}

func (g *Gate) Key() string { return fmt.Sprintf("%d/%s/%d/%d", g.A, g.Site, g.B, g.N) }

// Sched parks every goroutine that reaches a simhook.Yield until the root
// (scheduler) goroutine releases it; together with synctest.Wait this makes
// the tape the only thing that decides who runs next.
type Sched struct {
	mu      sync.Mutex
	parked  []*Gate
	counter map[string]int
	off     bool
	Passed  int
}

func NewSched() *Sched { return &Sched{counter: map[string]int{}} }

// Yield is installed as simhook.YieldFn.
func (s *Sched) Yield(site string, a, b int) {
	s.mu.Lock()
	if s.off {
		s.mu.Unlock()
		return
	}
	k := fmt.Sprintf("%d/%s/%d", a, site, b)
	s.counter[k]++
	g := &Gate{Site: site, A: a, B: b, N: s.counter[k], ch: make(chan struct{})}
	s.parked = append(s.parked, g)
	s.mu.Unlock()
	<-g.ch
}

// Parked returns the parked gates in a deterministic order (by owner, site,
// detail, arrival count) — never in arrival order, which the runtime decides.
func (s *Sched) Parked() []*Gate {
	s.mu.Lock()
	defer s.mu.Unlock()
	out := append([]*Gate(nil), s.parked...)
	sort.Slice(out, func(i, j int) bool {
		a, b := out[i], out[j]
		if a.A != b.A {
			return a.A < b.A
		}
		if a.Site != b.Site {
			return a.Site < b.Site
		}
		if a.B != b.B {
			return a.B < b.B
		}
		return a.N < b.N
	})
	return out
}

// Release lets exactly this goroutine continue.
func (s *Sched) Release(g *Gate) {
	s.mu.Lock()
	for i, p := range s.parked {
		if p == g {
			s.parked = append(s.parked[:i], s.parked[i+1:]...)
			break
		}
	}
	s.Passed++
	s.mu.Unlock()
	close(g.ch)
}

// ResetOwner forgets the arrival counters of owner a. A server that is being
// stopped races its goroutines through selects on the quit channel, so how
// many of them pass one more Yield is the runtime's choice; the next server
// started for the same node starts counting from one again.
func (s *Sched) ResetOwner(a int) {
	s.mu.Lock()
	defer s.mu.Unlock()
	prefix := fmt.Sprintf("%d/", a)
	for k := range s.counter {
		if strings.HasPrefix(k, prefix) {
			delete(s.counter, k)
		}
	}
}

// Off turns gating off and releases everything (used at shutdown).
func (s *Sched) Off() {
	s.mu.Lock()
	s.off = true
	p := s.parked
	s.parked = nil
	s.mu.Unlock()
	for _, g := range p {
		close(g.ch)
	}
}

// GoID returns the id of the calling goroutine (parsed from its stack header);
// used to map a scheduling point reached inside the system to the simulated
// task whose goroutine reached it.
func GoID() uint64 {
	var buf [40]byte
	n := runtime.Stack(buf[:], false)
	// "goroutine 123 ["
	var id uint64
	for _, ch := range buf[len("goroutine "):n] {
		if ch < '0' || ch > '9' {
			break
		}
		id = id*10 + uint64(ch-'0')
	}
	return id
}
