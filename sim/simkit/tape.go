// Package simkit is the deterministic-simulation kernel: the choice tape that
// decides every schedule/fault/argument choice of a run, shrinking, replay
// files, per-run statistics, and the simulated disk.
package simkit

import "fmt"

// splitmix64: tiny, well-mixed, seedable; the only PRNG of the harness.
type splitmix struct{ s uint64 }

func (r *splitmix) next() uint64 {
	r.s += 0x9e3779b97f4a7c15
	z := r.s
	z = (z ^ (z >> 30)) * 0xbf58476d1ce4e5b9
	z = (z ^ (z >> 27)) * 0x94d049bb133111eb
	return z ^ (z >> 31)
}

// Mix derives an independent seed from parts (seed, worker, run ...).
func Mix(parts ...uint64) uint64 {
	h := uint64(0x243f6a8885a308d3)
	for i, p := range parts {
		r := splitmix{s: h ^ (p * 0x9e3779b97f4a7c15) ^ uint64(i+1)<<56}
		h = r.next()
		h = h*0xd6e8feb86659fd93 + p
		r = splitmix{s: h}
		h = r.next()
	}
	return h
}

// Tape is the single source of nondeterminism of a run. In record mode values
// are drawn from the PRNG and appended; in replay mode the recorded values are
// returned and, once exhausted, 0 — by construction the simplest choice
// everywhere (no fault, FIFO, smallest argument, "stop generating").
type Tape struct {
	Seed   uint64
	rng    splitmix
	vals   []uint32
	pos    int
	replay bool
	// Overrun counts choices made after a replayed tape ran out.
	Overrun int
}

func NewTape(seed uint64) *Tape { return &Tape{Seed: seed, rng: splitmix{s: seed}} }

func ReplayTape(seed uint64, vals []uint32) *Tape {
	cp := append([]uint32(nil), vals...)
	return &Tape{Seed: seed, vals: cp, replay: true}
}

// Values returns the values consumed so far (record) or the prefix consumed (replay).
func (t *Tape) Values() []uint32 {
	if t.replay {
		n := t.pos
		if n > len(t.vals) {
			n = len(t.vals)
		}
		return append([]uint32(nil), t.vals[:n]...)
	}
	return append([]uint32(nil), t.vals...)
}

func (t *Tape) Pos() int { return t.pos }

// Choose returns a value in [0,n). n<=1 consumes nothing.
func (t *Tape) Choose(n int) int {
	if n <= 1 {
		return 0
	}
	if t.replay {
		var v uint32
		if t.pos < len(t.vals) {
			v = t.vals[t.pos]
		} else {
			t.Overrun++
		}
		t.pos++
		return int(v % uint32(n))
	}
	v := uint32(t.rng.next() % uint64(n))
	t.vals = append(t.vals, v)
	t.pos++
	return int(v)
}

// Range returns a value in [lo,hi] (inclusive); lo is the simplest.
func (t *Tape) Range(lo, hi int) int {
	if hi <= lo {
		return lo
	}
	return lo + t.Choose(hi-lo+1)
}

// Prob is true with probability num/den; false is the simplest.
func (t *Tape) Prob(num, den int) bool {
	if num <= 0 {
		return false
	}
	return t.Choose(den) >= den-num
}

// Bool is a fair coin; false is simplest.
func (t *Tape) Bool() bool { return t.Choose(2) == 1 }

// Bytes returns n tape-chosen bytes.
func (t *Tape) Bytes(n int) []byte {
	b := make([]byte, n)
	for i := range b {
		b[i] = byte(t.Choose(256))
	}
	return b
}

// Uint64 returns a biased 64-bit value: small values, boundaries and random bits.
func (t *Tape) Uint64() uint64 {
	switch t.Choose(6) {
	case 0:
		return uint64(t.Choose(4))
	case 1:
		return uint64(t.Choose(1000))
	case 2:
		return uint64(t.Choose(1 << 30))
	case 3:
		return ^uint64(0) - uint64(t.Choose(3))
	case 4:
		return uint64(1)<<uint(t.Choose(64)) - uint64(t.Choose(2))
	default:
		return uint64(t.Choose(1<<31))<<32 | uint64(t.Choose(1<<31))
	}
}

// Pick returns one index weighted by w (w[i]>=0); index 0 should be the simplest op.
func (t *Tape) Pick(w ...int) int {
	total := 0
	for _, x := range w {
		total += x
	}
	if total <= 0 {
		return 0
	}
	v := t.Choose(total)
	for i, x := range w {
		if v < x {
			return i
		}
		v -= x
	}
	return len(w) - 1
}

// Perm returns a tape-chosen permutation of 0..n-1 (identity is simplest).
func (t *Tape) Perm(n int) []int {
	p := make([]int, n)
	for i := range p {
		p[i] = i
	}
	for i := 0; i < n-1; i++ {
		j := i + t.Choose(n-i)
		p[i], p[j] = p[j], p[i]
	}
	return p
}

func (t *Tape) String() string { return fmt.Sprintf("tape(seed=%d,len=%d)", t.Seed, len(t.vals)) }
