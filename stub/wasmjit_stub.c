/* Stub of the ontology wasm JIT C interface.  The archive shipped in this
 * snapshot (smartcontract/service/wasmvm/libwasmjit_onto_interface.a) is empty,
 * so nothing importing the ledger links.  Every entry point reports
 * "wasmjit unavailable"; the WASM interpreter (wagon), NeoVM, EVM and the native
 * contracts are unaffected.  Linked first via CGO_LDFLAGS=-L/verif/build/stublib. */
#include "wasmjit_runtime.h"
#include <string.h>

static wasmjit_bytes_t mk(const char *s) {
  wasmjit_bytes_t b; b.len = (uint32_t)strlen(s); b.data = (uint8_t *)malloc(b.len ? b.len : 1);
  memcpy(b.data, s, b.len); return b;
}
static wasmjit_result_t unavailable(void) {
  wasmjit_result_t r; r.kind = 1; r.msg = mk("wasmjit unavailable (verif stub)"); return r;
}
void wasmjit_bytes_destroy(wasmjit_bytes_t bytes) { if (bytes.data) free(bytes.data); }
wasmjit_bytes_t wasmjit_bytes_new(uint32_t len) { wasmjit_bytes_t b; b.len = len; b.data = (uint8_t *)calloc(len ? len : 1, 1); return b; }
wasmjit_chain_context_t *wasmjit_chain_context_create(uint32_t height, h256_t *blockhash, uint64_t timestamp, h256_t *txhash,
    wasmjit_slice_t callers_raw, wasmjit_slice_t witness_raw, wasmjit_slice_t input_raw, uint64_t exec_step,
    uint64_t gas_factor, uint64_t gas_left, uint64_t depth_left, uint64_t service_index) { return (wasmjit_chain_context_t *)0; }
uint64_t wasmjit_chain_context_get_gas(wasmjit_chain_context_t *ctx) { return 0; }
void wasmjit_chain_context_pop_caller(wasmjit_chain_context_t *ctx, address_t *result) {}
void wasmjit_chain_context_push_caller(wasmjit_chain_context_t *ctx, address_t caller) {}
void wasmjit_chain_context_set_gas(wasmjit_chain_context_t *ctx, uint64_t gas) {}
void wasmjit_chain_context_set_calloutput(wasmjit_chain_context_t *ctx, wasmjit_bytes_t bytes) {}
wasmjit_bytes_t wasmjit_chain_context_take_output(wasmjit_chain_context_t *ctx) { return wasmjit_bytes_new(0); }
wasmjit_result_t wasmjit_compile(wasmjit_module_t **compiled, wasmjit_slice_t wasm) { return unavailable(); }
void wasmjit_instance_destroy(wasmjit_instance_t *instance) {}
wasmjit_result_t wasmjit_instance_invoke(wasmjit_instance_t *instance, wasmjit_chain_context_t *ctx) { return unavailable(); }
wasmjit_result_t wasmjit_instantiate(wasmjit_instance_t **instance, wasmjit_resolver_t *resolver, wasmjit_slice_t wasm) { return unavailable(); }
void wasmjit_module_destroy(wasmjit_module_t *module) {}
wasmjit_result_t wasmjit_module_instantiate(const wasmjit_module_t *module, wasmjit_resolver_t *resolver, wasmjit_instance_t **instance) { return unavailable(); }
void wasmjit_resolver_destroy(wasmjit_resolver_t *resolver) {}
wasmjit_resolver_t *wasmjit_simple_resolver_create(void) { return (wasmjit_resolver_t *)0; }
wasmjit_result_t wasmjit_validate(wasmjit_slice_t wasm) { return unavailable(); }
wasmjit_result_t wasmjit_vmctx_memory(wasmjit_vmctx_t *ctx, wasmjit_slice_t *result) { return unavailable(); }
wasmjit_result_t wasmjit_construct_result(uint8_t *data_buffer, uint32_t data_len, wasmjit_result_kind kind) {
  wasmjit_result_t r; r.kind = kind; r.msg = wasmjit_bytes_new(data_len); if (data_len) memcpy(r.msg.data, data_buffer, data_len); return r;
}
uint64_t wasmjit_service_index(wasmjit_vmctx_t *ctx) { return 0; }
wasmjit_ret wasmjit_invoke(wasmjit_slice_t code, wasmjit_chain_context_t *ctx) {
  wasmjit_ret r; r.exec_step = 0; r.gas_left = 0; r.buffer = wasmjit_bytes_new(0); r.res = unavailable(); return r;
}
void wasmjit_set_calloutput(wasmjit_vmctx_t *ctx, uint8_t *data, uint32_t len) {}
uint64_t wasmjit_get_gas(wasmjit_vmctx_t *ctx) { return 0; }
uint64_t wasmjit_get_exec_step(wasmjit_vmctx_t *ctx) { return 0; }
void wasmjit_set_gas(wasmjit_vmctx_t *ctx, uint64_t gas) {}
void wasmjit_set_exec_step(wasmjit_vmctx_t *ctx, uint64_t exec_step) {}
